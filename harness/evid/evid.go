// Package evid is the shared bookkeeping of every check: case counting, non-trivial
// classification, distinct-case hashing, sample capture, known-finding exclusion, replay files
// and the statistics file the driver (/verif/check) turns into /verif/evidence/<id>.json.
package evid

import (
	"bytes"
	"encoding/json"
	"fmt"
	"hash/fnv"
	"os"
	"path/filepath"
	"sort"
	"strconv"
	"sync"
	"testing"
	"time"

	"pgregory.net/rapid"
)

// Disc is one discrepancy between the code under test and the oracle.
// Sig is a narrow signature: it names the specific failing input class / call site, and is what
// known_findings.json entries are matched against (exact string equality).
type Disc struct {
	Sig string `json:"sig"`
	Msg string `json:"msg"`
	Ctx string `json:"ctx,omitempty"` // shared context (the executed history), printed once per failure
}

func D(sig, format string, a ...any) Disc { return Disc{Sig: sig, Msg: fmt.Sprintf(format, a...)} }

// Finding is one entry of /verif/known_findings.json.
type Finding struct {
	Property  string `json:"property"`
	ID        string `json:"id"`
	Status    string `json:"status"` // "open" or "fixed"
	Signature string `json:"signature"`
	What      string `json:"what"`
	Commit    string `json:"commit,omitempty"`
}

type Rec struct {
	mu           sync.Mutex
	ID           string
	Rule         string
	start        time.Time
	evals        int64
	distinct     map[uint64]struct{}
	labels       map[string]int64
	samples      []any
	sampleSeen   int64
	maxSamples   int
	known        map[string]Finding // open findings of this property by signature
	knownSeen    map[string]int64
	knownWhat    map[string]string
	notAsserted  int64
	extra        map[string]any
	assumptions  []string
	exhaustive   bool
	lastFail     *failure
	fails        int64
	inconclusive string
	distinctN    int64 // distinct-by-construction cases (enumerations), not hashed
}

type failure struct {
	Property string          `json:"property"`
	Discs    []Disc          `json:"discrepancies"`
	Case     json.RawMessage `json:"case"`
}

func New(id, rule string) *Rec {
	r := &Rec{ID: id, Rule: rule, start: time.Now(), distinct: map[uint64]struct{}{}, labels: map[string]int64{},
		maxSamples: 6, known: map[string]Finding{}, knownSeen: map[string]int64{}, knownWhat: map[string]string{}, extra: map[string]any{}}
	path := os.Getenv("VERIF_KNOWN")
	if path == "" {
		path = "/verif/known_findings.json"
	}
	if b, err := os.ReadFile(path); err == nil {
		var fs []Finding
		if err := json.Unmarshal(b, &fs); err != nil {
			panic("known_findings.json unreadable: " + err.Error())
		}
		for _, f := range fs {
			if f.Property == id && f.Status == "open" {
				r.known[f.Signature] = f
			}
		}
	}
	return r
}

func Tier() string {
	if t := os.Getenv("VERIF_TIER"); t != "" {
		return t
	}
	return "quick"
}

func Thorough() bool { return Tier() == "thorough" }

// Seed returns the run's seed (VERIF_SEED remapped so that 0 becomes 1), plus the shard index.
func Seed() int64 {
	s, _ := strconv.ParseInt(os.Getenv("VERIF_SEED"), 10, 64)
	if s == 0 {
		s = 1
	}
	sh, _ := strconv.ParseInt(os.Getenv("VERIF_SHARD"), 10, 64)
	return s*64 + sh
}

func Shard() (idx, n int) {
	idx, _ = strconv.Atoi(os.Getenv("VERIF_SHARD"))
	n, _ = strconv.Atoi(os.Getenv("VERIF_SHARDS"))
	if n <= 0 {
		n = 1
	}
	return
}

func (r *Rec) Eval()         { r.mu.Lock(); r.evals++; r.mu.Unlock() }
func (r *Rec) EvalN(n int64) { r.mu.Lock(); r.evals += n; r.mu.Unlock() }

// NonTrivial records a non-trivial case identified by its semantic key.
func (r *Rec) NonTrivial(key string) {
	h := fnv.New64a()
	h.Write([]byte(key))
	r.mu.Lock()
	r.distinct[h.Sum64()] = struct{}{}
	r.mu.Unlock()
}

// DistinctN counts n non-trivial cases that are distinct by construction (an enumeration without repeats).
func (r *Rec) DistinctN(n int64) { r.mu.Lock(); r.distinctN += n; r.mu.Unlock() }

func (r *Rec) Label(l string)            { r.mu.Lock(); r.labels[l]++; r.mu.Unlock() }
func (r *Rec) LabelN(l string, n int64)  { r.mu.Lock(); r.labels[l] += n; r.mu.Unlock() }
func (r *Rec) NotAsserted()              { r.mu.Lock(); r.notAsserted++; r.mu.Unlock() }
func (r *Rec) Set(k string, v any)       { r.mu.Lock(); r.extra[k] = v; r.mu.Unlock() }
func (r *Rec) Assume(s string)           { r.mu.Lock(); r.assumptions = append(r.assumptions, s); r.mu.Unlock() }
func (r *Rec) Exhaustive(b bool)         { r.mu.Lock(); r.exhaustive = b; r.mu.Unlock() }
func (r *Rec) Inconclusive(why string)   { r.mu.Lock(); r.inconclusive = why; r.mu.Unlock() }
func (r *Rec) LabelCount(l string) int64 { r.mu.Lock(); defer r.mu.Unlock(); return r.labels[l] }

// Sample keeps the first few samples and then a sparse selection of later ones.
func (r *Rec) Sample(v any) {
	r.mu.Lock()
	defer r.mu.Unlock()
	r.sampleSeen++
	if len(r.samples) < r.maxSamples {
		r.samples = append(r.samples, v)
		return
	}
	// deterministic sparse replacement: powers of 4
	n := r.sampleSeen
	if n&(n-1) == 0 && (bitsLen(n)%2 == 1) {
		r.samples[int(bitsLen(n)/2)%r.maxSamples] = v
	}
}

func bitsLen(n int64) int64 {
	var l int64
	for n > 0 {
		l++
		n >>= 1
	}
	return l
}

// Explain splits discrepancies into those explained by open known findings (counted) and the rest.
func (r *Rec) Explain(ds []Disc) (unexplained []Disc) {
	r.mu.Lock()
	defer r.mu.Unlock()
	for _, d := range ds {
		if f, ok := r.known[d.Sig]; ok {
			r.knownSeen[d.Sig]++
			r.knownWhat[d.Sig] = f.What
			continue
		}
		unexplained = append(unexplained, d)
	}
	return
}

// IsKnown reports whether a signature is an open known finding (used by generators that must avoid
// aborting triggers by construction).
func (r *Rec) IsKnown(sig string) bool { _, ok := r.known[sig]; return ok }

// Fail records a failing case (the last one recorded is the most shrunk one, because rapid re-runs the
// minimal case last).
func (r *Rec) Fail(c any, ds []Disc) {
	b, err := json.Marshal(c)
	if err != nil {
		b, _ = json.Marshal(fmt.Sprintf("%+v", c))
	}
	r.mu.Lock()
	r.lastFail = &failure{Property: r.ID, Discs: ds, Case: b}
	r.fails++
	r.mu.Unlock()
}

// Finish writes the replay file (if a failure was recorded) and the statistics file. Call it deferred.
func (r *Rec) Finish(t testing.TB) {
	r.mu.Lock()
	defer r.mu.Unlock()
	var replayPath string
	if r.lastFail != nil && os.Getenv("VERIF_REPLAY") == "" {
		dir := os.Getenv("VERIF_REPLAY_DIR")
		if dir == "" {
			dir = filepath.Join(os.TempDir(), "verif-replays", r.ID)
		}
		_ = os.MkdirAll(dir, 0o755)
		b, _ := json.MarshalIndent(r.lastFail, "", " ")
		h := fnv.New64a()
		h.Write(r.lastFail.Case)
		replayPath = filepath.Join(dir, fmt.Sprintf("%s-%016x.json", r.ID, h.Sum64()))
		_ = os.WriteFile(replayPath, b, 0o644)
		fmt.Printf("VIOLATION-REPLAY property=%s replay=%s\n", r.ID, replayPath)
		for _, d := range r.lastFail.Discs {
			fmt.Printf("  discrepancy [%s] %s\n", d.Sig, d.Msg)
		}
		if len(r.lastFail.Discs) > 0 && r.lastFail.Discs[0].Ctx != "" {
			fmt.Printf("%s\n", r.lastFail.Discs[0].Ctx)
		}
	}
	path := os.Getenv("VERIF_STATS")
	if path == "" {
		return
	}
	hashes := []string{}
	if os.Getenv("VERIF_DUMP_HASHES") == "1" && len(r.distinct) <= 400000 {
		for h := range r.distinct {
			hashes = append(hashes, strconv.FormatUint(h, 16))
		}
		sort.Strings(hashes)
	}
	known := []map[string]any{}
	sigs := make([]string, 0, len(r.knownSeen))
	for s := range r.knownSeen {
		sigs = append(sigs, s)
	}
	sort.Strings(sigs)
	for _, s := range sigs {
		known = append(known, map[string]any{"signature": s, "count": r.knownSeen[s], "what": r.knownWhat[s]})
	}
	out := map[string]any{
		"property_id":              r.ID,
		"rule":                     r.Rule,
		"evaluations":              r.evals,
		"distinct_nontrivial":      int64(len(r.distinct)) + r.distinctN,
		"distinct_by_construction": r.distinctN,
		"labels":                   r.labels,
		"samples":                  r.samples,
		"known":                    known,
		"not_asserted":             r.notAsserted,
		"extra":                    r.extra,
		"assumptions":              r.assumptions,
		"exhaustive":               r.exhaustive,
		"fails":                    r.fails,
		"replay":                   replayPath,
		"inconclusive":             r.inconclusive,
		"wall_s":                   time.Since(r.start).Seconds(),
		"hashes":                   hashes,
	}
	b, err := json.Marshal(out)
	if err != nil {
		// samples must always be serialisable; fall back to their printed form
		ss := []any{}
		for _, s := range r.samples {
			ss = append(ss, fmt.Sprintf("%+v", s))
		}
		out["samples"] = ss
		b, _ = json.Marshal(out)
	}
	_ = os.WriteFile(path, b, 0o644)
}

// Run drives one generated check: gen draws a case (pure data), check evaluates it against the oracle and
// returns discrepancies. In replay mode ($VERIF_REPLAY) the saved case is evaluated once, without rapid.
func Run[C any](t *testing.T, r *Rec, gen func(*rapid.T) C, check func(C, *Rec) []Disc) {
	if p := os.Getenv("VERIF_REPLAY"); p != "" {
		Replay(t, r, p, check)
		return
	}
	rapid.Check(t, func(rt *rapid.T) {
		c := gen(rt)
		r.Eval()
		ds := check(c, r)
		if un := r.Explain(ds); len(un) > 0 {
			r.Fail(c, un)
			rt.Fatalf("%s: %d unexplained discrepancies, first: [%s] %s", r.ID, len(un), un[0].Sig, un[0].Msg)
		}
	})
}

// Replay evaluates one saved case.
func Replay[C any](t *testing.T, r *Rec, path string, check func(C, *Rec) []Disc) {
	if st, err := os.Stat(path); err == nil && st.IsDir() {
		es, _ := os.ReadDir(path)
		for _, e := range es {
			if !e.IsDir() {
				Replay(t, r, filepath.Join(path, e.Name()), check)
			}
		}
		return
	}
	b, err := os.ReadFile(path)
	if err != nil {
		t.Fatalf("replay: %v", err)
	}
	var f failure
	if err := json.Unmarshal(b, &f); err != nil {
		t.Fatalf("replay: %v", err)
	}
	if f.Property != "" && f.Property != r.ID {
		return
	}
	var c C
	raw := f.Case
	if len(raw) == 0 {
		raw = b
	}
	if err := json.Unmarshal(raw, &c); err != nil {
		t.Fatalf("replay: case does not decode: %v", err)
	}
	r.Eval()
	ds := check(c, r)
	if un := r.Explain(ds); len(un) > 0 {
		r.Fail(c, un)
		for _, d := range un {
			t.Errorf("%s: [%s] %s", filepath.Base(path), d.Sig, d.Msg)
		}
		if os.Getenv("VERIF_VERBOSE") != "" && un[0].Ctx != "" {
			fmt.Println(un[0].Ctx)
		}
	}
}

// Direct evaluates a hand-built or enumerated case outside rapid (exhaustive sweeps, witnesses).
// It returns the unexplained discrepancies and records a failure if there are any.
func Direct[C any](t testing.TB, r *Rec, c C, check func(C, *Rec) []Disc) []Disc {
	r.Eval()
	ds := check(c, r)
	un := r.Explain(ds)
	if len(un) > 0 {
		r.Fail(c, un)
		t.Errorf("%s: [%s] %s", r.ID, un[0].Sig, un[0].Msg)
	}
	return un
}

// Witness runs the recorded minimal input of a known finding. If it still fails with exactly that signature,
// the finding is counted (the driver prints KNOWN-FINDING for it). Anything else it produces is handled
// like any other discrepancy.
func Witness[C any](t testing.TB, r *Rec, c C, check func(C, *Rec) []Disc) {
	ds := check(c, r)
	if un := r.Explain(ds); len(un) > 0 {
		r.Fail(c, un)
		t.Errorf("%s witness: [%s] %s", r.ID, un[0].Sig, un[0].Msg)
	}
}

func ReplayMode() bool { return os.Getenv("VERIF_REPLAY") != "" }

// ReplayEither replays a saved case that may be of one of two case types (tried in order by strict decoding).
func ReplayEither[A any, B any](t *testing.T, r *Rec, ca func(A, *Rec) []Disc, cb func(B, *Rec) []Disc) {
	p := os.Getenv("VERIF_REPLAY")
	replayEither(t, r, p, ca, cb)
}

func replayEither[A any, B any](t *testing.T, r *Rec, p string, ca func(A, *Rec) []Disc, cb func(B, *Rec) []Disc) {
	if st, err := os.Stat(p); err == nil && st.IsDir() {
		es, _ := os.ReadDir(p)
		for _, e := range es {
			if !e.IsDir() {
				replayEither(t, r, filepath.Join(p, e.Name()), ca, cb)
			}
		}
		return
	}
	b, err := os.ReadFile(p)
	if err != nil {
		t.Fatalf("replay: %v", err)
	}
	var f failure
	if err := json.Unmarshal(b, &f); err != nil {
		t.Fatalf("replay: %v", err)
	}
	var a A
	if strictUnmarshal(f.Case, &a) == nil {
		Replay(t, r, p, ca)
		return
	}
	Replay(t, r, p, cb)
}

func strictUnmarshal(b []byte, v any) error {
	d := json.NewDecoder(bytes.NewReader(b))
	d.DisallowUnknownFields()
	return d.Decode(v)
}

func (r *Rec) FailCount() int64 { r.mu.Lock(); defer r.mu.Unlock(); return r.fails }
