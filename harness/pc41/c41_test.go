// Package pc41 holds the C41 check: pooled buffers (package /repo/mempool) are never shared between two users
// and are never handed out dirty; a capped pool never hands out a buffer larger than its cap.
package pc41

import (
	"bytes"
	"errors"
	"flag"
	"fmt"
	"io"
	"runtime"
	"runtime/debug"
	"strconv"
	"sync"
	"sync/atomic"
	"testing"

	"github.com/mochi-mqtt/server/v2/mempool"
	"pgregory.net/rapid"
	"verif/harness/evid"
)

// ---- case (pure data) --------------------------------------------------------------------------------

// c41Case describes one concurrent run. Every worker goroutine expands its own seed with a fixed splitmix64
// generator into a get / write / yield / verify / put program, so the PROGRAMS are a function of the case; the
// interleaving of the goroutines (and the garbage collector's emptying of sync.Pool) is not.
type c41Case struct {
	Pool     int      `json:"pool"`          // 0 NewBuffer(0), 1 NewBuffer(Max), 2 package default pool (GetBuffer/PutBuffer), 3 NewBuffer(-1)
	Max      int      `json:"max,omitempty"` // cap of the capped pool
	G        int      `json:"g"`             // worker goroutines
	Ops      int      `json:"ops"`           // program steps per worker
	Hold     int      `json:"hold"`          // buffers one worker may own at once (the encoders in packets/ nest up to 3)
	Big      int      `json:"big"`           // largest single write
	YieldPct int      `json:"yield_pct"`     // chance of runtime.Gosched() after a step
	GCEvery  int      `json:"gc_every"`      // worker 0 calls runtime.GC() every this many steps (0 = never)
	Bare     bool     `json:"bare"`          // no shared harness bookkeeping (no owned-set): contents, emptiness, cap and -race are the oracle
	Seeds    []uint64 `json:"seeds"`         // one per worker
}

const (
	c41MaxTotal = 256 << 10 // a buffer is filled to at most 256 KiB
	c41MaxG     = 64
)

// ---- deterministic expansion of a seed -----------------------------------------------------------------

type c41Rng uint64

func (s *c41Rng) next() uint64 {
	*s += 0x9e3779b97f4a7c15
	z := uint64(*s)
	z = (z ^ (z >> 30)) * 0xbf58476d1ce4e5b9
	z = (z ^ (z >> 27)) * 0x94d049bb133111eb
	return z ^ (z >> 31)
}

// owner pattern: byte 0 = owner+1, bytes 1..4 = acquisition serial, byte i>=5 = base[shift(owner, serial)+i]
// (a window into a fixed pseudo-random table: filled and compared with bulk copy / bytes.Equal, because per-byte
// loops are ~100x slower under the race detector)
var c41Base [2 * c41MaxTotal]byte

func init() {
	s := c41Rng(0x6335_3431)
	for i := 0; i < len(c41Base); i += 8 {
		x := s.next()
		for j := 0; j < 8; j++ {
			c41Base[i+j] = byte(x >> (8 * j))
		}
	}
}

func c41Shift(owner int, serial uint32) int {
	s := c41Rng(uint64(owner)<<32 | uint64(serial))
	return int(s.next() % c41MaxTotal)
}

// c41Fill writes content[from : from+len(dst)] of the pattern of (owner, serial) into dst.
func c41Fill(dst []byte, from, owner int, serial uint32, shift int) {
	j := 0
	for ; j < len(dst) && from+j < 5; j++ {
		if i := from + j; i == 0 {
			dst[j] = byte(owner + 1)
		} else {
			dst[j] = byte(serial >> (8 * (i - 1)))
		}
	}
	copy(dst[j:], c41Base[shift+from+j:shift+from+len(dst)])
}

// c41Diff returns -1 if got is exactly the first len(got) bytes of the pattern, else the first differing index.
func c41Diff(got []byte, owner int, serial uint32, shift int) int {
	var hdr [5]byte
	c41Fill(hdr[:], 0, owner, serial, shift)
	for i := 0; i < len(got) && i < 5; i++ {
		if got[i] != hdr[i] {
			return i
		}
	}
	if len(got) <= 5 {
		return -1
	}
	exp := c41Base[shift+5 : shift+len(got)]
	if bytes.Equal(got[5:], exp) {
		return -1
	}
	for i := range exp {
		if got[5+i] != exp[i] {
			return 5 + i
		}
	}
	return -1
}

// size of one write: 0, tiny, clustered around the boundary b (the cap, or bytes.Buffer's first allocation of 64),
// uniform up to a little past twice the boundary, uniform up to Big, or the upper half of Big.
func c41Size(x uint64, big, b int) int {
	v := int((x >> 8) % (1 << 30))
	switch x % 16 {
	case 0:
		return 0
	case 1, 2, 3, 4, 5:
		return 1 + v%80
	case 6, 7, 8, 9:
		n := b - 8 + v%17
		if n < 0 {
			n = 0
		}
		return n
	case 10, 11, 12, 13:
		lim := 2*b + 64
		if lim > big {
			lim = big
		}
		return v % (lim + 1)
	case 14:
		return v % (big + 1)
	}
	return big/2 + v%(big/2+1)
}

// ---- one run ---------------------------------------------------------------------------------------

type c41Pool struct {
	get  func() *bytes.Buffer
	put  func(*bytes.Buffer)
	max  int // 0 = no cap
	kind string
}

func c41MakePool(c c41Case) c41Pool {
	switch c.Pool {
	case 1:
		p := mempool.NewBuffer(c.Max)
		return c41Pool{p.Get, p.Put, c.Max, "capped"}
	case 2:
		return c41Pool{mempool.GetBuffer, mempool.PutBuffer, 0, "default"}
	case 3:
		p := mempool.NewBuffer(-1)
		return c41Pool{p.Get, p.Put, 0, "uncapped"}
	}
	p := mempool.NewBuffer(0)
	return c41Pool{p.Get, p.Put, 0, "uncapped"}
}

type c41Env struct {
	c     c41Case
	p     c41Pool
	owned sync.Map // *bytes.Buffer -> owner (int); entry present from just after Get until just before Put
	stop  atomic.Bool
	mu    sync.Mutex
	ds    []evid.Disc
	oom   atomic.Bool
}

func (e *c41Env) report(d evid.Disc) {
	e.mu.Lock()
	dup := false
	for _, x := range e.ds {
		if x.Sig == d.Sig {
			dup = true
		}
	}
	if !dup && len(e.ds) < 6 {
		e.ds = append(e.ds, d)
	}
	e.mu.Unlock()
	e.stop.Store(true)
}

type c41Held struct {
	b      *bytes.Buffer
	serial uint32
	shift  int
	n      int
}

type c41Stats struct {
	gets, fresh, recycled, cross, puts, oversized, writes, verifies, yields, gcs, bytes int64
}

func (a *c41Stats) add(b *c41Stats) {
	a.gets += b.gets
	a.fresh += b.fresh
	a.recycled += b.recycled
	a.cross += b.cross
	a.puts += b.puts
	a.oversized += b.oversized
	a.writes += b.writes
	a.verifies += b.verifies
	a.yields += b.yields
	a.gcs += b.gcs
	a.bytes += b.bytes
}

type c41Worker struct {
	e       *c41Env
	id      int
	rng     c41Rng
	held    []c41Held
	serial  uint32
	scratch []byte
	st      c41Stats
}

var c41Scratch [c41MaxG][]byte // workers of successive cases never overlap

func (w *c41Worker) sig(what string) string { return "C41-" + w.e.p.kind + "-" + what }

func (w *c41Worker) get() bool {
	e := w.e
	b := e.p.get()
	w.st.gets++
	if b == nil {
		e.report(evid.D(w.sig("get-nil"), "Get returned nil (worker %d)", w.id))
		return false
	}
	if !e.c.Bare {
		if prev, loaded := e.owned.LoadOrStore(b, w.id); loaded {
			e.report(evid.D(w.sig("get-buffer-still-owned"), "worker %d obtained buffer %p from Get while worker %v still owns it (obtained it and has not Put it)", w.id, b, prev))
			return false
		}
	}
	if l := b.Len(); l != 0 {
		e.report(evid.D(w.sig("get-nonempty"), "worker %d: Get returned a buffer with Len()=%d, Cap()=%d (first bytes %x)", w.id, l, b.Cap(), c41Head(b.Bytes())))
		return false
	}
	cp := b.Cap()
	if e.p.max > 0 && cp > e.p.max {
		e.report(evid.D("C41-capped-get-exceeds-cap", "worker %d: NewBuffer(%d).Get returned a buffer with Cap()=%d", w.id, e.p.max, cp))
		return false
	}
	if cp > 0 {
		// a new(bytes.Buffer) has capacity 0: this buffer has been used and Put before. The stale first byte
		// (beyond Len, within Cap) names a previous owner.
		w.st.recycled++
		if bs := b.Bytes(); cap(bs) > 0 {
			if o := int(bs[:1][0]) - 1; o != w.id {
				w.st.cross++
			}
		}
	} else {
		w.st.fresh++
	}
	w.serial++
	w.held = append(w.held, c41Held{b: b, serial: w.serial, shift: c41Shift(w.id, w.serial)})
	return true
}

func c41Head(b []byte) []byte {
	if len(b) > 12 {
		return b[:12]
	}
	return b
}

func (w *c41Worker) write(h *c41Held, n int, how uint64) {
	if h.n+n > c41MaxTotal {
		n = c41MaxTotal - h.n
	}
	chunk := w.scratch[:n]
	c41Fill(chunk, h.n, w.id, h.serial, h.shift)
	switch {
	case how%8 == 0 && n <= 200:
		for _, x := range chunk {
			h.b.WriteByte(x)
		}
	case how%8 == 1 && n <= 4096:
		h.b.WriteString(string(chunk))
	case how%8 == 2:
		h.b.Grow(n)
		h.b.Write(chunk)
	case how%8 == 3 && n > 1:
		h.b.Write(chunk[:n/2])
		h.b.Write(chunk[n/2:])
	default:
		h.b.Write(chunk)
	}
	h.n += n
	w.st.writes++
	w.st.bytes += int64(n)
}

func (w *c41Worker) verify(h *c41Held, when string) bool {
	w.st.verifies++
	got := h.b.Bytes()
	l := len(got) // == Len()
	if l > c41MaxTotal {
		got = got[:c41MaxTotal]
	}
	at := c41Diff(got, w.id, h.serial, h.shift)
	if l == h.n && at < 0 {
		return true
	}
	var hdr [12]byte
	exp := hdr[:]
	if h.n < len(exp) {
		exp = exp[:h.n]
	}
	c41Fill(exp, 0, w.id, h.serial, h.shift)
	w.e.report(evid.D(w.sig("contents-changed-while-owned"), "worker %d, %s: buffer %p (acquisition %d) should hold the %d bytes this worker wrote, but has Len()=%d, first difference at %d (-1: only the length differs; head %x, expected head %x)",
		w.id, when, h.b, h.serial, h.n, l, at, c41Head(got), c41Head(exp)))
	return false
}

func (w *c41Worker) put(i int, how uint64) bool {
	h := &w.held[i]
	if !w.verify(h, "before Put") {
		return false
	}
	// callers hand buffers back in any read state: untouched, partly read, drained
	switch how % 4 {
	case 1:
		if h.n > 0 {
			h.b.Next(1 + int(how>>8)%h.n)
		}
	case 2:
		_, _ = h.b.WriteTo(io.Discard)
	}
	if w.e.p.max > 0 && h.b.Cap() > w.e.p.max {
		w.st.oversized++
	}
	b := h.b
	w.held[i] = w.held[len(w.held)-1]
	w.held = w.held[:len(w.held)-1]
	if !w.e.c.Bare {
		w.e.owned.Delete(b) // before Put: from here on another worker may legitimately be given b
	}
	w.e.p.put(b)
	w.st.puts++
	return true
}

func (w *c41Worker) run(wg *sync.WaitGroup) {
	defer wg.Done()
	defer func() {
		if p := recover(); p != nil {
			if err, ok := p.(error); ok && errors.Is(err, bytes.ErrTooLarge) {
				w.e.oom.Store(true)
				w.e.stop.Store(true)
				return
			}
			// neither Get/Put nor bytes.Buffer methods can panic when every buffer handed out is empty and used by
			// this goroutine only; the stack tells where it happened
			st := string(debug.Stack())
			if len(st) > 1500 {
				st = st[:1500]
			}
			w.e.report(evid.D(w.sig("pool-or-buffer-op-panicked"), "worker %d: a pool operation or a bytes.Buffer operation on a buffer it owns panicked: %v\n%s", w.id, p, st))
		}
	}()
	e, c := w.e, w.e.c
	b := 64
	if e.p.max > 0 {
		b = e.p.max
	} else if w.rng.next()%2 == 0 {
		b = 4096
	}
	for step := 1; step <= c.Ops && !e.stop.Load(); step++ {
		x := w.rng.next()
		y := w.rng.next()
		act := x % 16
		switch {
		case len(w.held) == 0 || (act <= 2 && len(w.held) < c.Hold):
			if !w.get() {
				return
			}
		case act <= 8:
			h := &w.held[int(y>>40)%len(w.held)]
			w.write(h, c41Size(y, c.Big, b), x>>8)
		case act <= 10:
			if !w.verify(&w.held[int(y>>40)%len(w.held)], "while held") {
				return
			}
		case act == 11:
			runtime.Gosched()
			w.st.yields++
		default:
			if !w.put(int(y>>40)%len(w.held), y) {
				return
			}
		}
		if c.YieldPct > 0 && int((x>>32)%100) < c.YieldPct {
			runtime.Gosched()
			w.st.yields++
		}
		if w.id == 0 && c.GCEvery > 0 && step%c.GCEvery == 0 {
			runtime.GC()
			w.st.gcs++
		}
	}
	for len(w.held) > 0 && !e.stop.Load() {
		if !w.put(len(w.held)-1, 0) {
			return
		}
	}
}

func c41Norm(c c41Case) c41Case {
	clamp := func(v *int, lo, hi int) {
		if *v < lo {
			*v = lo
		}
		if *v > hi {
			*v = hi
		}
	}
	clamp(&c.G, 1, c41MaxG)
	clamp(&c.Ops, 1, 1<<20)
	clamp(&c.Hold, 1, 8)
	clamp(&c.Big, 1, c41MaxTotal)
	clamp(&c.Pool, 0, 3)
	if c.Pool == 1 && c.Max <= 0 {
		c.Max = 64
	}
	for len(c.Seeds) < c.G {
		c.Seeds = append(c.Seeds, uint64(len(c.Seeds))+1)
	}
	return c
}

var c41Total c41Stats

type c41Sample struct {
	Case                         c41Case
	Gets, Recycled, Cross, Bytes int64
}

func c41RunOnce(c c41Case, r *evid.Rec) []evid.Disc {
	e := &c41Env{c: c, p: c41MakePool(c)}
	var wg sync.WaitGroup
	ws := make([]*c41Worker, c.G)
	for i := range ws {
		if c41Scratch[i] == nil {
			c41Scratch[i] = make([]byte, c41MaxTotal)
		}
		ws[i] = &c41Worker{e: e, id: i, rng: c41Rng(c.Seeds[i]), scratch: c41Scratch[i]}
	}
	wg.Add(len(ws))
	for _, w := range ws {
		go w.run(&wg)
	}
	wg.Wait()
	var st c41Stats
	for _, w := range ws {
		st.add(&w.st)
	}
	c41Total.add(&st)
	if e.oom.Load() {
		r.Inconclusive("bytes.Buffer reported ErrTooLarge (memory exhausted) - not a verdict")
		r.NotAsserted()
		return nil
	}

	name := e.p.kind
	if c.Pool == 1 {
		name = fmt.Sprintf("capped-%d", c.Max)
	}
	r.Label("pool:" + name)
	if c.Bare {
		r.Label("mode:bare(no owned-set)")
	} else {
		r.Label("mode:owned-set")
	}
	switch {
	case c.G == 1:
		r.Label("goroutines:1")
	case c.G <= 4:
		r.Label("goroutines:2-4")
	default:
		r.Label("goroutines:5-16")
	}
	r.LabelN("op:get-fresh", st.fresh)
	r.LabelN("op:get-recycled", st.recycled)
	r.LabelN("op:get-recycled-from-another-goroutine", st.cross)
	r.LabelN("op:put", st.puts)
	r.LabelN("op:put-over-cap(capped pools)", st.oversized)
	r.LabelN("op:write", st.writes)
	r.LabelN("op:verify", st.verifies)
	if st.recycled > 0 {
		r.Label("case:recycling-observed")
		r.NonTrivial(fmt.Sprintf("%+v", c))
		if st.cross > 0 {
			r.Label("case:recycled-across-goroutines")
		}
		if c.Pool == 1 && st.oversized > 0 {
			r.Label("case:capped,recycling+over-cap-puts")
		}
	} else {
		r.Label("case:no-recycling-observed")
	}
	r.Set("gets_checked", c41Total.gets)
	r.Set("gets_recycled", c41Total.recycled)
	r.Set("gets_recycled_cross_goroutine", c41Total.cross)
	r.Set("puts", c41Total.puts)
	r.Set("puts_over_cap", c41Total.oversized)
	r.Set("content_verifications", c41Total.verifies)
	r.Set("bytes_written", c41Total.bytes)
	r.Set("explicit_gcs", c41Total.gcs)
	r.Sample(c41Sample{c, st.gets, st.recycled, st.cross, st.bytes})
	return e.ds
}

var c41Cases int

func c41Check(c c41Case, r *evid.Rec) []evid.Disc {
	c = c41Norm(c)
	c41Cases++
	reps := 1
	if evid.ReplayMode() {
		reps = 25 // the schedule is not part of the artefact: give a saved case several schedules
	}
	for i := 0; i < reps; i++ {
		if ds := c41RunOnce(c, r); len(ds) > 0 {
			return ds
		}
	}
	return nil
}

func c41Gen(rt *rapid.T) c41Case {
	c := c41Case{}
	c.Pool = rapid.SampledFrom([]int{0, 0, 1, 1, 1, 1, 2, 2, 3}).Draw(rt, "pool")
	if c.Pool == 1 {
		c.Max = rapid.SampledFrom([]int{64, 64, 64, 4096, 4096, 4096, 1, 100, 65536}).Draw(rt, "max")
	}
	c.G = rapid.IntRange(1, 16).Draw(rt, "goroutines")
	c.Hold = rapid.IntRange(1, 4).Draw(rt, "hold")
	c.Big = rapid.SampledFrom([]int{80, 5000, 5000, 65536, 262144}).Draw(rt, "big")
	// budget: total steps per case, smaller when single writes are large. Under the race detector (thorough tier) the
	// cost of a step is proportional to the bytes it touches (~1-3 ms per step with 64-256 KiB writes), so only the
	// budget of the small-write cases is raised there.
	budget := 48000
	if c.Big > 5000 || c.Max > 5000 {
		budget = 8000
		if evid.Thorough() {
			budget = 5000
		}
	} else if evid.Thorough() {
		budget = 200000
	}
	hi := budget / c.G
	if hi > 100000 {
		hi = 100000
	}
	lo := 200
	if lo > hi {
		lo = hi
	}
	c.Ops = rapid.IntRange(lo, hi).Draw(rt, "ops")
	c.YieldPct = rapid.SampledFrom([]int{0, 0, 5, 30}).Draw(rt, "yield")
	c.GCEvery = rapid.SampledFrom([]int{0, 0, 0, 4000, 900}).Draw(rt, "gc")
	c.Bare = rapid.IntRange(0, 4).Draw(rt, "bare") == 0
	for i := 0; i < c.G; i++ {
		c.Seeds = append(c.Seeds, rapid.Uint64().Draw(rt, "seed"))
	}
	return c
}

func TestC41(t *testing.T) {
	r := evid.New("C41", "rapid: 1-16 goroutines, each running a seed-expanded program of get / write (0..256 KiB of an owner- and acquisition-specific pattern, by Write, WriteString, WriteByte, Grow+Write; sizes clustered around the cap and around bytes.Buffer's growth steps) / yield / verify / put (unread, partly read or drained), holding up to 4 buffers at once, on NewBuffer(0), NewBuffer(-1), NewBuffer(max) with max in {64, 4096, 1, 100, 65536} and the package default pool, some with forced runtime.GC(); at every Get: Len()==0, pointer absent from the set of currently owned buffers, Cap()<=max for capped pools; at verify and before every Put: contents equal what this owner wrote. A case is non-trivial when recycling was observed in it (a Get returned a buffer with Cap()>0, i.e. one that had been used and Put before); distinct by full case")
	defer r.Finish(t)
	r.Assume("goroutine interleavings and garbage-collector timing (which empties sync.Pool) are explored statistically, not enumerated; the replay artefact is the case (pool, worker count, per-worker seeds and program parameters), not the schedule - a replay runs the case 25 times")
	r.Assume("recycling is recognised by Cap()>0 at Get (a new bytes.Buffer has capacity 0), so reuse of buffers that were never written is not counted")
	if evid.Thorough() {
		r.Assume("thorough tier is built with -race: a data race on a pooled buffer fails the run even where the explicit oracle did not fire")
	}
	evid.Run(t, r, c41Gen, c41Check)
	// rapid stops generating silently when the test deadline comes close: that is a time-budget hit, not a verdict
	if f := flag.Lookup("rapid.checks"); f != nil && !evid.ReplayMode() && r.FailCount() == 0 {
		if want, err := strconv.Atoi(f.Value.String()); err == nil && c41Cases < want {
			r.Inconclusive(fmt.Sprintf("rapid stopped early at the test deadline after %d of %d cases", c41Cases, want))
		}
	}
}
