#!/bin/bash
# seedsweep.sh [seed ids...]: re-applies every kept seeded change to /repo (if it still applies), runs the quick tier of
# the check of the property it breaks, undoes it, and prints one line per seed. /repo must be clean.
cd /verif
[ -n "$(git -C /repo status --short)" ] && { echo "/repo is not clean"; exit 2; }
ids=${@:-$(ls seeded)}
for id in $ids; do
  p=seeded/$id/patch.diff
  prop=$(jq -r .property seeded/$id/meta.json)
  if ! git -C /repo apply --check /verif/$p 2>/dev/null; then echo "$id: patch no longer applies to the current tree"; continue; fi
  git -C /repo apply /verif/$p
  out=$(./check $prop 2>&1 | grep -E "^(OK|VIOLATION|INCONCLUSIVE)" | head -1 | cut -c1-120)
  git -C /repo checkout -- .
  echo "$id ($prop): $out"
done
