#!/bin/bash
# runs every claimed check's thorough tier once (optionally only the ids given) and prints one line per check
here=$(cd $(dirname $0) && pwd)
ids=${@:-$(jq -r '.checks[].property_id' $here/MANIFEST.json)}
for id in $ids; do
  t0=$(date +%s)
  out=$(cd $here && ./check $id --tier thorough 2>&1 | grep -E "^(OK|VIOLATION|INCONCLUSIVE)" | head -3 | tr '\n' ' ')
  echo "$id ($(( $(date +%s) - t0 )) s): $out"
done
